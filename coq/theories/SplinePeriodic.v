(** C07, fourth part: periodic splines take equal values (degree >= 1) and equal slopes (degree >= 2)
    at both ends of the period.

    Knot vector as make_knots(periodic=True) builds it: n cells, degree p, length n+2p+1, strictly
    increasing, knots[i+n] = knots[i] + period.  Coefficients of length n+p wrapped: c[n+j] = c[j], j < p.
    Then  nu_eval_spline_1d_scalar(a) = nu_eval_spline_1d_scalar(b),  a = knots[p], b = knots[n+p],
    for der = 0 (p >= 1) and der = 1 (p >= 2; for p = 1 the spline is only C0 and the statement is false:
    the code returns the right slope at a and the left slope at b). *)
From Coq Require Import List Arith Lia ZArith Bool Field Ring Setoid.
Import ListNotations.
From PGV Require Import BasisCoxDeBoor CoxDeBoorGen CoxDeBoorDeriv CoxDeBoorPeriodic FindSpan CubicUniform Sums
  SplineModel SplineTheory SplinePaths SplineDeriv.

Section Per.
Variable F : Type.
Variable K : sp_ops F.
Hypothesis HK : sp_laws K.
Add Field SPFq : (spl_field K HK).
Notation "x + y" := (spadd K x y). Notation "x * y" := (spmul K x y).
Notation "x - y" := (spsub K x y). Notation "x / y" := (spdiv K x y).
Notation "0" := (sp0 K). Notation "1" := (sp1 K).
Notation "x <= y" := (sp_le K x y). Notation "x < y" := (sp_lt K x y).
Notation Fth := (spl_field K HK).
Notation kn := (sp_kn F K).
Notation sumr := (Sums.sumr F 0 (spadd K)).

Lemma sp_sumr_last a n f : sumr a (S n) f = sumr a n f + f (a + n)%nat.
Proof.
  replace (S n) with (n + 1)%nat by lia.
  rewrite (Sums.sumr_app F 0 1 (spadd K) (spmul K) (spsub K) (spdiv K) (spopp K) (spinv K) Fth). cbn [Sums.sumr]. ring.
Qed.
Lemma sp_sumr_shift f : forall n a, sumr (S a) n f = sumr a n (fun j => f (S j)).
Proof. induction n as [|n IH]; intros a; cbn [Sums.sumr]; [reflexivity|]. rewrite IH. reflexivity. Qed.

Definition sp_strict (knots : list F) : Prop :=
  forall i, (S i < length knots)%nat -> kn knots i < kn knots (S i).
Definition sp_periodic_knots (knots : list F) (n : nat) (P : F) : Prop :=
  forall i, (i + n < length knots)%nat -> kn knots (i + n) = kn knots i + P.
Definition sp_wrapped (coeffs : list F) (n p : nat) : Prop :=
  forall j, (j < p)%nat -> nth (n + j) coeffs 0 = nth j coeffs 0.

Lemma sp_strict_sorted knots : sp_strict knots -> sp_sorted F K knots.
Proof. intros H i Hi. apply (H i Hi). Qed.

(** the sum manipulation, for any family G s x i with local support, continuity at both ends and
    translation invariance *)
Lemma sp_periodic_sum (G : nat -> F -> nat -> F) (c : nat -> F) (n p : nat) (a b : F) :
  (1 <= p)%nat -> (1 <= n)%nat ->
  (forall s x i, (s < i \/ i + p < s)%nat -> G s x i = 0) ->
  (forall i, G (p - 1)%nat a i = G p a i) ->
  (forall i, G (n + p - 1)%nat b i = G (n + p)%nat b i) ->
  (forall j, (j < p)%nat -> G (n + p - 1)%nat b (n + j)%nat = G (p - 1)%nat a j) ->
  (forall j, (j < p)%nat -> c (n + j)%nat = c j) ->
  sumr 0 (S p) (fun j => c j * G p a j)
  = sumr 0 (S p) (fun j => c (n - 1 + j)%nat * G (n + p - 1)%nat b (n - 1 + j)%nat).
Proof.
  intros Hp Hn P1 P2a P2b P3 Hw.
  rewrite sp_sumr_last. cbn [Nat.add].
  rewrite <- (P2a p), (P1 (p - 1)%nat a p) by lia.
  cbn [Sums.sumr]. rewrite Nat.add_0_r, (P2b (n - 1)%nat), (P1 (n + p)%nat b (n - 1)%nat) by lia.
  rewrite sp_sumr_shift.
  rewrite (Sums.sumr_ext F 0 (spadd K) 0 p (fun j => c j * G p a j) (fun j => c j * G (p - 1)%nat a j))
    by (intros j _; rewrite P2a; reflexivity).
  rewrite (Sums.sumr_ext F 0 (spadd K) 0 p
             (fun j => c (n - 1 + S j)%nat * G (n + p - 1)%nat b (n - 1 + S j)%nat)
             (fun j => c j * G (p - 1)%nat a j)).
  - ring.
  - intros j Hj. replace (n - 1 + S j)%nat with (n + j)%nat by lia. rewrite Hw, P3 by lia. reflexivity.
Qed.

Section Knots.
Variable knots : list F.
Variables (n p : nat) (P : F).
Hypothesis Hstrict : sp_strict knots.
Hypothesis Hlen : length knots = (n + 2 * p + 1)%nat.
Hypothesis Hper : sp_periodic_knots knots n P.
Hypothesis Hp : (1 <= p)%nat.
Hypothesis Hn : (1 <= n)%nat.
Notation a := (kn knots p).
Notation b := (kn knots (n + p)).
Notation sorted := (sp_strict_sorted knots Hstrict).

Lemma sp_per_b : b = a + P.
Proof. replace (n + p)%nat with (p + n)%nat by lia. apply Hper. lia. Qed.

Lemma sp_per_ne i : (S i < length knots)%nat -> kn knots i <> kn knots (S i).
Proof. intros H. apply (Hstrict i H). Qed.

(* the spans found at both ends *)
Lemma sp_per_span_a : sp_nu_find_span F K knots p a = SpOk p /\ sp_span_ok F K knots p.
Proof.
  assert (Hsp : sp_span_ok F K knots p) by (apply Hstrict; lia).
  split; [|exact Hsp].
  destruct (sp_nu_find_span_domain F K HK knots p a sorted) as [s [E [Hr [Hps [H1 [H2 Hend]]]]]].
  - lia.
  - apply Hstrict. lia.
  - replace (length knots - 1 - p)%nat with (S (length knots - p - 2)) by lia. apply Hstrict. lia.
  - apply (sp_le_refl F K HK).
  - apply (sp_kn_mono F K HK knots sorted). lia.
  - rewrite E. f_equal. symmetry.
    apply (sp_closed_span_unique F K HK knots (length knots - 1 - p) a p s sorted).
    + repeat split; try apply Hsp; try lia.
      * apply (sp_le_refl F K HK).
      * intros H. exfalso. apply (proj2 Hsp). apply (spl_le_antisym K HK); [apply Hsp|exact H].
    + repeat split; try assumption; try apply Hps; try lia. intros H. rewrite (Hend H). lia.
Qed.
Lemma sp_per_span_b : sp_nu_find_span F K knots p b = SpOk (n + p - 1)%nat /\ sp_span_ok F K knots (n + p - 1).
Proof.
  assert (Hsp : sp_span_ok F K knots (n + p - 1)) by (apply Hstrict; lia).
  split; [|exact Hsp].
  destruct (sp_nu_find_span_domain F K HK knots p b sorted) as [s [E [Hr [Hps [H1 [H2 Hend]]]]]].
  - lia.
  - apply Hstrict. lia.
  - replace (length knots - 1 - p)%nat with (S (length knots - p - 2)) by lia. apply Hstrict. lia.
  - apply (sp_kn_mono F K HK knots sorted). lia.
  - replace (length knots - 1 - p)%nat with (n + p)%nat by lia. apply (sp_le_refl F K HK).
  - rewrite E. f_equal. symmetry.
    apply (sp_closed_span_unique F K HK knots (length knots - 1 - p) b (n + p - 1) s sorted).
    + repeat split; try apply Hsp; try lia.
      * apply (sp_kn_mono F K HK knots sorted). lia.
      * replace (S (n + p - 1)) with (n + p)%nat by lia. apply (sp_le_refl F K HK).
    + repeat split; try assumption; try apply Hps; try lia. intros H. rewrite (Hend H). lia.
Qed.

(* the three properties for values and for derivatives *)
Notation tt := (kn knots).
Notation eqs := (sp_eqb_spec F K HK).

Lemma sp_per_translate j : (j < p)%nat -> forall m, (j <= m <= j + p + 1)%nat -> tt (m + n)%nat = tt m + P.
Proof. intros Hj m Hm. apply Hper. lia. Qed.

Lemma sp_per_Nd_P3 j : (j < p)%nat -> sp_Nd F K knots (n + p - 1) b p (n + j) = sp_Nd F K knots (p - 1) a p j.
Proof.
  intros Hj. unfold sp_Nd. replace (n + p - 1)%nat with (p - 1 + n)%nat by lia. replace (n + j)%nat with (j + n)%nat by lia.
  rewrite (Ng_shift F 0 1 (spadd K) (spmul K) (spsub K) (spdiv K) (speqb K)).
  rewrite sp_per_b.
  apply (Ng_translate F 0 1 (spadd K) (spmul K) (spsub K) (spdiv K) (spopp K) (spinv K) Fth (speqb K)).
  apply sp_per_translate, Hj.
Qed.
Lemma sp_per_DNd_P3 j : (j < p)%nat -> sp_DNd F K knots (n + p - 1) b p (n + j) = sp_DNd F K knots (p - 1) a p j.
Proof.
  intros Hj. unfold sp_DNd. replace (n + p - 1)%nat with (p - 1 + n)%nat by lia. replace (n + j)%nat with (j + n)%nat by lia.
  rewrite (DNg_shift F 0 1 (spadd K) (spmul K) (spsub K) (spdiv K) (speqb K)).
  rewrite sp_per_b.
  apply (DNg_translate F 0 1 (spadd K) (spmul K) (spsub K) (spdiv K) (spopp K) (spinv K) Fth (speqb K)).
  apply sp_per_translate, Hj.
Qed.

Lemma sp_per_Nd_cont s i : (S (S s) < length knots)%nat ->
  sp_Nd F K knots s (tt (S s)) p i = sp_Nd F K knots (S s) (tt (S s)) p i.
Proof.
  intros H. unfold sp_Nd. destruct p as [|d]; [lia|].
  apply (Nd_cont F 0 1 (spadd K) (spmul K) (spsub K) (spdiv K) (spopp K) (spinv K) Fth (speqb K) eqs);
    apply sp_per_ne; lia.
Qed.
Lemma sp_per_DNd_cont s i : (2 <= p)%nat -> (S (S s) < length knots)%nat ->
  sp_DNd F K knots s (tt (S s)) p i = sp_DNd F K knots (S s) (tt (S s)) p i.
Proof.
  intros H2 H. unfold sp_DNd. destruct p as [|[|d]]; [lia|lia|].
  apply (DNd_cont F 0 1 (spadd K) (spmul K) (spsub K) (spdiv K) (spopp K) (spinv K) (sp_le K) Fth
           (spl_le_antisym K HK) (speqb K) eqs); [apply (sp_kn_mono F K HK knots sorted)| |]; apply sp_per_ne; lia.
Qed.

Lemma sp_per_Nd_cont' s i : (1 <= s)%nat -> (S s < length knots)%nat ->
  sp_Nd F K knots (s - 1) (tt s) p i = sp_Nd F K knots s (tt s) p i.
Proof. intros H1 H. destruct s as [|s]; [lia|]. replace (S s - 1)%nat with s by lia. apply sp_per_Nd_cont, H. Qed.
Lemma sp_per_DNd_cont' s i : (2 <= p)%nat -> (1 <= s)%nat -> (S s < length knots)%nat ->
  sp_DNd F K knots (s - 1) (tt s) p i = sp_DNd F K knots s (tt s) p i.
Proof. intros H2 H1 H. destruct s as [|s]; [lia|]. replace (S s - 1)%nat with s by lia. apply sp_per_DNd_cont; assumption. Qed.

Variable coeffs : list F.
Hypothesis Hc : length coeffs = (n + p)%nat.
Hypothesis Hw : sp_wrapped coeffs n p.

(** equal values at both ends of the period, every degree >= 1 *)
Theorem sp_periodic_values :
  sp_nu_eval_1d_scalar F K a knots p coeffs 0 = sp_nu_eval_1d_scalar F K b knots p coeffs 0.
Proof.
  destruct sp_per_span_a as [Ea Hpa]. destruct sp_per_span_b as [Eb Hpb].
  rewrite (sp_nu_eval_1d_scalar_spec F K HK knots p coeffs a 0 p) by (try assumption; try apply sorted; lia).
  rewrite (sp_nu_eval_1d_scalar_spec F K HK knots p coeffs b 0 (n + p - 1)) by (try assumption; try apply sorted; lia).
  f_equal. cbn [sp_basis_of].
  rewrite !(sp_A22_eq_Nd F K HK knots p) by (try assumption; try apply sorted; lia).
  rewrite (Sums.sumr_ext F 0 (spadd K) 0 (S p) _ (fun j => nth j coeffs 0 * sp_Nd F K knots p a p j)).
  2:{ intros j Hj. rewrite (sp_nth_map_seq F (fun q => sp_Nd F K knots p a p (p - p + q))) by lia. cbn [Nat.add].
      replace (p - p + j)%nat with j by lia. reflexivity. }
  rewrite (Sums.sumr_ext F 0 (spadd K) 0 (S p) (fun j => nth (n + p - 1 - p + j) coeffs 0 * _)
             (fun j => nth (n - 1 + j) coeffs 0 * sp_Nd F K knots (n + p - 1) b p (n - 1 + j))).
  2:{ intros j Hj. rewrite (sp_nth_map_seq F (fun q => sp_Nd F K knots (n + p - 1) b p (n + p - 1 - p + q))) by lia. cbn [Nat.add].
      replace (n + p - 1 - p + j)%nat with (n - 1 + j)%nat by lia. reflexivity. }
  apply (sp_periodic_sum (fun s x i => sp_Nd F K knots s x p i) (fun j => nth j coeffs 0) n p a b Hp Hn).
  - intros s x i H. unfold sp_Nd.
    apply (Nd_support F 0 1 (spadd K) (spmul K) (spsub K) (spdiv K) (spopp K) (spinv K) Fth). exact H.
  - intros i. apply sp_per_Nd_cont'; lia.
  - intros i. apply sp_per_Nd_cont'; lia.
  - apply sp_per_Nd_P3.
  - exact Hw.
Qed.

(** equal slopes at both ends of the period, every degree >= 2 *)
Theorem sp_periodic_slopes : (2 <= p)%nat ->
  sp_nu_eval_1d_scalar F K a knots p coeffs 1 = sp_nu_eval_1d_scalar F K b knots p coeffs 1.
Proof.
  intros H2. destruct sp_per_span_a as [Ea Hpa]. destruct sp_per_span_b as [Eb Hpb].
  rewrite (sp_nu_eval_1d_scalar_spec F K HK knots p coeffs a 1 p) by (try assumption; try apply sorted; lia).
  rewrite (sp_nu_eval_1d_scalar_spec F K HK knots p coeffs b 1 (n + p - 1)) by (try assumption; try apply sorted; lia).
  f_equal. cbn [sp_basis_of].
  rewrite (Sums.sumr_ext F 0 (spadd K) 0 (S p) _ (fun j => nth j coeffs 0 * sp_DNd F K knots p a p j)).
  2:{ intros j Hj. rewrite (sp_ders_eq_formal_derivative F K HK knots p a p j) by (try assumption; try apply sorted; lia).
      replace (p - p + j)%nat with j by lia. reflexivity. }
  rewrite (Sums.sumr_ext F 0 (spadd K) 0 (S p) (fun j => nth (n + p - 1 - p + j) coeffs 0 * _)
             (fun j => nth (n - 1 + j) coeffs 0 * sp_DNd F K knots (n + p - 1) b p (n - 1 + j))).
  2:{ intros j Hj. rewrite (sp_ders_eq_formal_derivative F K HK knots p b (n + p - 1) j) by (try assumption; try apply sorted; lia).
      replace (n + p - 1 - p + j)%nat with (n - 1 + j)%nat by lia. reflexivity. }
  apply (sp_periodic_sum (fun s x i => sp_DNd F K knots s x p i) (fun j => nth j coeffs 0) n p a b Hp Hn).
  - intros s x i H. unfold sp_DNd.
    apply (DNd_support F 0 1 (spadd K) (spmul K) (spsub K) (spdiv K) (spopp K) (spinv K) Fth (speqb K)). exact H.
  - intros i. apply sp_per_DNd_cont'; lia.
  - intros i. apply sp_per_DNd_cont'; lia.
  - apply sp_per_DNd_P3.
  - exact Hw.
Qed.

End Knots.
End Per.
