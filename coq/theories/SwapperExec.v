(** C03: executable, list-level form of the cross-handler steps of LayoutSwapper._transpose /
    _transpose_source_intact (layout.py:1286-1494) for the world ranks of the cartesian topology of the
    largest handler, and their correctness, obtained by instantiating ScatterStep.scatter_correct,
    ScatterStep.same_correct and GatherValid.gather_correct_valid (= the functions of GatherStep.v) at
    functions read from lists (the pattern of TransposeExec.v).

    [nprocsT]  extents of the topology (Create_cart of the largest handler); world rank = row-major index.
    A layout is [(dims, ax)]: [dims] its dimension order, [ax] the topology axis used by each distribution
    direction of its handler (communicators are identified with topology axes): the process count along
    layout axis [a] is [nth (nth a ax) nprocsT], the coordinate is the world coordinate on that topology
    axis; axes beyond [length ax] are undistributed. *)
From Coq Require Import List Arith Lia PeanoNat Bool.
Import ListNotations.
From PGV Require Import NdIndex Blocks Layouts Handler TransposeExec GatherStep GatherValid ScatterStep.

Definition sw_lay := (list nat * list nat)%type.

Fixpoint sw_nodup_b (l : list nat) : bool :=
  match l with
  | [] => true
  | x :: r => negb (existsb (Nat.eqb x) r) && sw_nodup_b r
  end.

Lemma sw_existsb_eqb_false x l : existsb (Nat.eqb x) l = false -> ~ In x l.
Proof.
  intros H Hin. assert (E : existsb (Nat.eqb x) l = true).
  { apply existsb_exists. exists x. split; [exact Hin|apply Nat.eqb_refl]. }
  congruence.
Qed.

Lemma sw_nodup_b_spec l : sw_nodup_b l = true -> NoDup l.
Proof.
  induction l as [|x r IH]; intros H; [constructor|]. cbn [sw_nodup_b] in H.
  apply andb_prop in H. destruct H as [H1 H2]. apply negb_true_iff in H1.
  constructor; [apply sw_existsb_eqb_false, H1|apply IH, H2].
Qed.

(** getAxes: position of the first communicator of the scattered handler that the gathered handler lacks *)
Fixpoint sw_first_new (axG axS : list nat) (i : nat) : option nat :=
  match axS with
  | [] => None
  | t :: r => if existsb (Nat.eqb t) axG then sw_first_new axG r (S i) else Some i
  end.

Lemma sw_first_new_spec axG : forall axS i k, sw_first_new axG axS i = Some k ->
  i <= k /\ k - i < length axS /\ ~ In (nth (k - i) axS 0) axG.
Proof.
  induction axS as [|t r IH]; intros i k H; cbn [sw_first_new] in H; [discriminate|].
  destruct (existsb (Nat.eqb t) axG) eqn:E.
  - destruct (IH _ _ H) as [H1 [H2 H3]]. cbn [length].
    replace (k - i) with (S (k - S i)) by lia. cbn [nth]. repeat split; try lia. exact H3.
  - injection H as <-. rewrite Nat.sub_diag. cbn [nth length]. repeat split; try lia.
    apply sw_existsb_eqb_false, E.
Qed.

Definition sw_upd (c : nat -> nat) (X r : nat) : nat -> nat := fun t => if t =? X then r else c t.

Section SwExec.
Variable V : Type.
Variable dflt : V.
Variables Nl nprocsT : list nat.
Variable d' : nat.
Let d := S d'.

Definition sw_Nf (e : nat) : nat := nth e Nl 0.
Definition sw_PT (t : nat) : nat := nth t nprocsT 1.
Definition sw_P (ax : list nat) (a : nat) : nat := if a <? length ax then sw_PT (nth a ax 0) else 1.
Definition sw_co (ax : list nat) (c : nat -> nat) (a : nat) : nat := if a <? length ax then c (nth a ax 0) else 0.
Definition sw_pif (L : sw_lay) (a : nat) : nat := nth a (fst L) 0.
Definition sw_ipif (L : sw_lay) (e : nat) : nat := index_of (fst L) e.

Definition sw_nranks : nat := size nprocsT.
Definition sw_cfun (w : nat) : nat -> nat := fun t => rd (unravel nprocsT w) t.
Definition sw_rank_of (c : nat -> nat) : nat := ravel nprocsT (mk (length nprocsT) c).
Definition sw_valid (c : nat -> nat) : Prop := forall t, c t < sw_PT t.
Definition sw_srcf (bufs : list (list V)) : (nat -> nat) -> nat -> V :=
  fun c A => nth A (nth (sw_rank_of c) bufs []) dflt.

Definition sw_shapef (L : sw_lay) (c : nat -> nat) (a : nat) : nat :=
  blen (sw_Nf (sw_pif L a)) (sw_P (snd L) a) (sw_co (snd L) c a).
Definition sw_shape (L : sw_lay) (w : nat) : list nat := mk d (sw_shapef L (sw_cfun w)).
Definition sw_globf (L : sw_lay) (c : nat -> nat) (j : list nat) : list nat :=
  mk d (fun e => rd j (sw_ipif L e)
                 + bstart (sw_Nf e) (sw_P (snd L) (sw_ipif L e)) (sw_co (snd L) c (sw_ipif L e))).
Definition sw_glob (L : sw_lay) (w : nat) (j : list nat) : list nat := sw_globf L (sw_cfun w) j.

(** number of distributed directions of a handler (LayoutHandler._nDims = len(nprocs) - nprocs.count(1)) *)
Definition sw_nd (ax : list nat) : nat := length (filter (fun t => negb (sw_PT t =? 1)) ax).

(** ** the three cross-handler cases, destination prefix of every world rank *)
Definition sw_run_same (S D : sw_lay) (bufs : list (list V)) : list (list V) :=
  map (fun w => map (sm_dst V d sw_Nf (sw_pif S) (sw_pif D) (sw_ipif D) (nat -> nat)
                            (sw_P (snd S)) (sw_P (snd D)) (sw_co (snd S)) (sw_co (snd D))
                            (sw_srcf bufs) (sw_cfun w))
                    (seq 0 (size (sw_shape D w))))
      (seq 0 sw_nranks).
Definition sw_run_scatter (S D : sw_lay) (is_ : nat) (bufs : list (list V)) : list (list V) :=
  map (fun w => map (sc_dst V d sw_Nf (sw_pif S) (sw_pif D) (sw_ipif D) is_ (nat -> nat)
                            (sw_P (snd S)) (sw_P (snd D)) (sw_co (snd S)) (sw_co (snd D))
                            (sw_srcf bufs) (sw_cfun w))
                    (seq 0 (size (sw_shape D w))))
      (seq 0 sw_nranks).
Definition sw_run_gather (S D : sw_lay) (is_ : nat) (bufs : list (list V)) : list (list V) :=
  map (fun w => map (GatherStep.dst V d sw_Nf (sw_pif S) (sw_pif D) (sw_ipif D) is_ (nat -> nat)
                            (fun c r => sw_upd c (nth is_ (snd S) 0) r)
                            (sw_P (snd S)) (sw_P (snd D)) (sw_co (snd S)) (sw_co (snd D))
                            (sw_srcf bufs) (sw_cfun w))
                    (seq 0 (size (sw_shape D w))))
      (seq 0 sw_nranks).

(** dispatch as LayoutSwapper._transpose: by the numbers of distributed directions; axes by getAxes *)
Definition sw_scatter_axis (S D : sw_lay) : option nat :=
  match sw_first_new (snd S) (snd D) 0 with
  | Some idd => Some (index_of (fst S) (nth idd (fst D) 0))
  | None => None
  end.
Definition sw_gather_axis (S D : sw_lay) : option nat := sw_first_new (snd D) (snd S) 0.

Definition sw_run_step (S D : sw_lay) (bufs : list (list V)) : list (list V) :=
  if sw_nd (snd D) =? sw_nd (snd S) then sw_run_same S D bufs
  else if sw_nd (snd S) <? sw_nd (snd D) then
    match sw_scatter_axis S D with Some is_ => sw_run_scatter S D is_ bufs | None => [] end
  else
    match sw_gather_axis S D with Some is_ => sw_run_gather S D is_ bufs | None => [] end.

(** ** boolean well-formedness *)
Definition sw_ax_wf_b (ax : list nat) : bool := (length ax <=? d) && sw_nodup_b ax.
Definition sw_cfg_wf_b (S D : sw_lay) : bool :=
  (length Nl =? d) && perm_b d (fst S) && perm_b d (fst D) && forallb (fun p => 0 <? p) nprocsT
  && sw_ax_wf_b (snd S) && sw_ax_wf_b (snd D).

(** source axis [a] and the destination axis holding the same dimension are distributed over the same
    topology axis (or over one process on both sides) *)
Definition sw_axis_same_b (S D : sw_lay) (a : nat) : bool :=
  let a' := index_of (fst D) (nth a (fst S) 0) in
  (sw_P (snd D) a' =? sw_P (snd S) a) &&
  ((sw_P (snd S) a =? 1) ||
   ((a <? length (snd S)) && (a' <? length (snd D)) && (nth a (snd S) 0 =? nth a' (snd D) 0))).

Definition sw_same_wf_b (S D : sw_lay) : bool := forallb (sw_axis_same_b S D) (seq 0 d).
Definition sw_scatter_wf_b (S D : sw_lay) (is_ : nat) : bool :=
  (is_ <? d) && forallb (fun a => (a =? is_) || sw_axis_same_b S D a) (seq 0 d)
  && (sw_P (snd S) is_ =? 1).
Definition sw_gather_wf_b (S D : sw_lay) (is_ : nat) : bool :=
  (is_ <? length (snd S)) && forallb (fun a => (a =? is_) || sw_axis_same_b S D a) (seq 0 d)
  && (sw_P (snd D) (index_of (fst D) (nth is_ (fst S) 0)) =? 1)
  && negb (existsb (Nat.eqb (nth is_ (snd S) 0)) (snd D)).

Definition sw_step_wf_b (S D : sw_lay) : bool :=
  sw_cfg_wf_b S D &&
  (if sw_nd (snd D) =? sw_nd (snd S) then sw_same_wf_b S D
   else if sw_nd (snd S) <? sw_nd (snd D) then
     match sw_scatter_axis S D with Some is_ => sw_scatter_wf_b S D is_ | None => false end
   else
     match sw_gather_axis S D with Some is_ => sw_gather_wf_b S D is_ | None => false end).

Variable G : list nat -> V.

(** "every world rank holds, at each local position of its block, the value of the global field" *)
Definition HoldsS (L : sw_lay) (bufs : list (list V)) : Prop :=
  forall w, w < sw_nranks -> forall j, inb (sw_shape L w) j ->
    nth (ravel (sw_shape L w) j) (nth w bufs []) dflt = G (sw_glob L w j).
(** the buffers are exactly the blocks (no padding) *)
Definition sw_exact (L : sw_lay) (bufs : list (list V)) : Prop :=
  length bufs = sw_nranks /\ forall w, w < sw_nranks -> length (nth w bufs []) = size (sw_shape L w).

(** ** coordinates *)
Section WithPos.
Hypothesis Hpos : forallb (fun p => 0 <? p) nprocsT = true.

Lemma sw_PT_pos t : 0 < sw_PT t.
Proof. clear d.
  unfold sw_PT. destruct (Nat.lt_ge_cases t (length nprocsT)) as [Ht|Ht].
  - rewrite forallb_forall in Hpos. specialize (Hpos (nth t nprocsT 1) (nth_In _ _ Ht)).
    apply Nat.ltb_lt in Hpos. exact Hpos.
  - rewrite nth_overflow by exact Ht. lia.
Qed.
Lemma sw_P_pos ax a : 0 < sw_P ax a.
Proof. clear d. unfold sw_P. destruct (a <? length ax); [apply sw_PT_pos|lia]. Qed.
End WithPos.

Lemma sw_nprocs_mk : nprocsT = mk (length nprocsT) sw_PT.
Proof. symmetry. apply mk_nth. Qed.

Lemma sw_cfun_valid w : w < sw_nranks -> sw_valid (sw_cfun w).
Proof. clear d.
  intros Hw t. unfold sw_cfun, sw_PT.
  pose proof (unravel_inb nprocsT w Hw) as Hinb.
  destruct (Nat.lt_ge_cases t (length nprocsT)) as [Ht|Ht].
  - pose proof (inb_rd _ _ Hinb t Ht) as H. unfold rd in H. rewrite (nth_indep nprocsT 1 0 Ht). exact H.
  - rewrite rd_default by (rewrite (inb_length _ _ Hinb); exact Ht).
    rewrite nth_overflow by exact Ht. lia.
Qed.

Lemma sw_valid_inb c : sw_valid c -> inb nprocsT (mk (length nprocsT) c).
Proof. intros Hc. rewrite sw_nprocs_mk at 1. apply inb_mk. intros t _. apply Hc. Qed.

Lemma sw_rank_of_lt c : sw_valid c -> sw_rank_of c < sw_nranks.
Proof. intros Hc. unfold sw_rank_of, sw_nranks. apply ravel_lt, sw_valid_inb, Hc. Qed.

Lemma sw_cfun_rank_of c t : sw_valid c -> sw_cfun (sw_rank_of c) t = c t.
Proof. clear d.
  intros Hc. unfold sw_cfun, sw_rank_of. rewrite (unravel_ravel _ _ (sw_valid_inb c Hc)).
  destruct (Nat.lt_ge_cases t (length nprocsT)) as [Ht|Ht].
  - apply rd_mk. exact Ht.
  - rewrite rd_default by (rewrite length_mk; exact Ht).
    pose proof (Hc t) as H. unfold sw_PT in H. rewrite nth_overflow in H by exact Ht. lia.
Qed.

Lemma sw_rank_of_cfun w : w < sw_nranks -> sw_rank_of (sw_cfun w) = w.
Proof.
  intros Hw. unfold sw_rank_of, sw_cfun.
  pose proof (unravel_inb nprocsT w Hw) as Hinb.
  rewrite mk_rd by (apply (inb_length _ _ Hinb)). apply ravel_unravel, Hw.
Qed.

Lemma sw_co_lt ax c a : sw_valid c -> sw_co ax c a < sw_P ax a.
Proof. clear d. intros Hc. unfold sw_co, sw_P. destruct (a <? length ax); [apply Hc|lia]. Qed.

Lemma sw_co_ext ax c c' a : (forall t, c t = c' t) -> sw_co ax c a = sw_co ax c' a.
Proof. intros H. unfold sw_co. destruct (a <? length ax); [apply H|reflexivity]. Qed.

Lemma sw_shape_rank_of L c : sw_valid c -> sw_shape L (sw_rank_of c) = mk d (sw_shapef L c).
Proof.
  intros Hc. unfold sw_shape. apply mk_ext. intros a _. unfold sw_shapef.
  rewrite (sw_co_ext _ (sw_cfun (sw_rank_of c)) c) by (intros; apply sw_cfun_rank_of, Hc). reflexivity.
Qed.
Lemma sw_glob_rank_of L c j : sw_valid c -> sw_glob L (sw_rank_of c) j = sw_globf L c j.
Proof.
  intros Hc. unfold sw_glob, sw_globf. apply mk_ext. intros e _.
  rewrite (sw_co_ext _ (sw_cfun (sw_rank_of c)) c) by (intros; apply sw_cfun_rank_of, Hc). reflexivity.
Qed.

(** HoldsS on lists gives the function-level precondition of the step theorems *)
Lemma sw_holds_src L bufs : HoldsS L bufs ->
  sc_Holds_src V d sw_Nf (sw_pif L) (sw_ipif L) (nat -> nat) sw_valid (sw_P (snd L)) (sw_co (snd L)) G (sw_srcf bufs).
Proof.
  intros HL c Hc j Hj. unfold sw_srcf.
  specialize (HL (sw_rank_of c) (sw_rank_of_lt c Hc) j).
  rewrite (sw_shape_rank_of L c Hc), (sw_glob_rank_of L c j Hc) in HL.
  exact (HL Hj).
Qed.

Lemma sw_nth_map_seq (f : nat -> V) n i : i < n -> nth i (map f (seq 0 n)) dflt = f i.
Proof.
  intros H. rewrite (nth_indep _ dflt (f 0)) by (rewrite map_length, seq_length; exact H).
  rewrite map_nth, seq_nth by exact H. reflexivity.
Qed.
Lemma sw_nth_map_seq_list (f : nat -> list V) n i : i < n -> nth i (map f (seq 0 n)) [] = f i.
Proof.
  intros H. rewrite (nth_indep _ [] (f 0)) by (rewrite map_length, seq_length; exact H).
  rewrite map_nth, seq_nth by exact H. reflexivity.
Qed.

(** the hypothesis Hsame of the function-level theorems from the boolean check *)
Lemma sw_axis_same_spec S D a c : sw_axis_same_b S D a = true -> sw_valid c ->
  sw_P (snd D) (sw_ipif D (sw_pif S a)) = sw_P (snd S) a /\
  sw_co (snd D) c (sw_ipif D (sw_pif S a)) = sw_co (snd S) c a.
Proof. clear d.
  unfold sw_axis_same_b, sw_ipif, sw_pif. intros H Hc.
  set (a' := index_of (fst D) (nth a (fst S) 0)) in *.
  apply andb_prop in H. destruct H as [H1 H2]. apply Nat.eqb_eq in H1. split; [exact H1|].
  apply orb_prop in H2. destruct H2 as [H2|H2].
  - apply Nat.eqb_eq in H2.
    pose proof (sw_co_lt (snd S) c a Hc). pose proof (sw_co_lt (snd D) c a' Hc). lia.
  - apply andb_prop in H2. destruct H2 as [H2 H5]. apply andb_prop in H2. destruct H2 as [H3 H4].
    apply Nat.eqb_eq in H5. unfold sw_co. rewrite H3, H4, H5. reflexivity.
Qed.

Section Steps.
Variables S D : sw_lay.
Hypothesis Hwf : sw_cfg_wf_b S D = true.

Lemma sw_wf_parts : length Nl = d /\ perm_b d (fst S) = true /\ perm_b d (fst D) = true
  /\ forallb (fun p => 0 <? p) nprocsT = true
  /\ (length (snd S) <= d /\ NoDup (snd S)) /\ (length (snd D) <= d /\ NoDup (snd D)).
Proof.
  pose proof Hwf as W. unfold sw_cfg_wf_b, sw_ax_wf_b in W.
  apply andb_prop in W. destruct W as [W H5]. apply andb_prop in H5. destruct H5 as [H5 H5'].
  apply andb_prop in W. destruct W as [W H4]. apply andb_prop in H4. destruct H4 as [H4 H4'].
  apply andb_prop in W. destruct W as [W H3].
  apply andb_prop in W. destruct W as [W H2].
  apply andb_prop in W. destruct W as [W H1].
  apply Nat.eqb_eq in W. apply Nat.leb_le in H4, H5.
  repeat split; try assumption; apply sw_nodup_b_spec; assumption.
Qed.

Theorem sw_same_correct bufs : sw_same_wf_b S D = true ->
  HoldsS S bufs -> HoldsS D (sw_run_same S D bufs).
Proof.
  intros Hs HL. destruct sw_wf_parts as [HlN [Hp [Hp' [Hpos _]]]].
  assert (Hsame : forall (q : nat -> nat) a, sw_valid q -> a < d ->
            sw_P (snd D) (sw_ipif D (sw_pif S a)) = sw_P (snd S) a /\
            sw_co (snd D) q (sw_ipif D (sw_pif S a)) = sw_co (snd S) q a).
  { intros q a Hq Ha. apply sw_axis_same_spec; [|exact Hq].
    unfold sw_same_wf_b in Hs. rewrite forallb_forall in Hs. apply Hs, in_seq. lia. }
  pose proof (same_correct V d sw_Nf (sw_pif S) (sw_ipif S) (sw_pif D) (sw_ipif D) (nat -> nat) sw_valid
                (sw_P (snd S)) (sw_P (snd D)) (sw_co (snd S)) (sw_co (snd D))
                (perm_fwd d (fst S) Hp) (perm_bwd d (fst S) Hp) (perm_bwd d (fst D) Hp')
                Hsame G (sw_srcf bufs) (sw_holds_src S bufs HL)) as HD.
  intros w Hw j' Hj'. unfold sw_run_same.
  rewrite sw_nth_map_seq_list by exact Hw.
  rewrite sw_nth_map_seq by (apply ravel_lt, Hj').
  exact (HD (sw_cfun w) (sw_cfun_valid w Hw) j' Hj').
Qed.

Theorem sw_scatter_correct is_ bufs : sw_scatter_wf_b S D is_ = true ->
  HoldsS S bufs -> HoldsS D (sw_run_scatter S D is_ bufs).
Proof.
  intros Hs HL. destruct sw_wf_parts as [HlN [Hp [Hp' [Hpos _]]]].
  unfold sw_scatter_wf_b in Hs. apply andb_prop in Hs. destruct Hs as [Hs Hfull].
  apply andb_prop in Hs. destruct Hs as [His Hall]. apply Nat.ltb_lt in His. apply Nat.eqb_eq in Hfull.
  assert (Hsame : forall (q : nat -> nat) a, sw_valid q -> a < d -> a <> is_ ->
            sw_P (snd D) (sw_ipif D (sw_pif S a)) = sw_P (snd S) a /\
            sw_co (snd D) q (sw_ipif D (sw_pif S a)) = sw_co (snd S) q a).
  { intros q a Hq Ha Hne. apply sw_axis_same_spec; [|exact Hq].
    rewrite forallb_forall in Hall. specialize (Hall a ltac:(apply in_seq; lia)).
    destruct (Nat.eqb_spec a is_); [contradiction|]. exact Hall. }
  assert (HF : sw_P (snd S) is_ = 1 /\ forall q : nat -> nat, sw_valid q -> sw_co (snd S) q is_ = 0).
  { split; [exact Hfull|]. intros q Hq. pose proof (sw_co_lt (snd S) q is_ Hq). lia. }
  pose proof (scatter_correct V d sw_Nf (sw_pif S) (sw_ipif S) (sw_pif D) (sw_ipif D) is_ (nat -> nat) sw_valid
                (sw_P (snd S)) (sw_P (snd D)) (sw_co (snd S)) (sw_co (snd D)) His
                (perm_fwd d (fst S) Hp) (perm_bwd d (fst S) Hp) (perm_bwd d (fst D) Hp')
                Hsame HF (fun q Hq => sw_co_lt (snd D) q _ Hq)
                G (sw_srcf bufs) (sw_holds_src S bufs HL)) as HD.
  intros w Hw j' Hj'. unfold sw_run_scatter.
  rewrite sw_nth_map_seq_list by exact Hw.
  rewrite sw_nth_map_seq by (apply ravel_lt, Hj').
  exact (HD (sw_cfun w) (sw_cfun_valid w Hw) j' Hj').
Qed.

Theorem sw_gather_correct is_ bufs : sw_gather_wf_b S D is_ = true ->
  HoldsS S bufs -> HoldsS D (sw_run_gather S D is_ bufs).
Proof.
  intros Hs HL. destruct sw_wf_parts as [HlN [Hp [Hp' [Hpos [[HlS HndS] _]]]]].
  unfold sw_gather_wf_b in Hs. apply andb_prop in Hs. destruct Hs as [Hs _].
  apply andb_prop in Hs. destruct Hs as [Hs Hfull].
  apply andb_prop in Hs. destruct Hs as [His Hall]. apply Nat.ltb_lt in His. apply Nat.eqb_eq in Hfull.
  assert (Hisd : is_ < d) by lia.
  set (X := nth is_ (snd S) 0).
  assert (HPX : sw_P (snd S) is_ = sw_PT X).
  { unfold sw_P. destruct (Nat.ltb_spec is_ (length (snd S))); [reflexivity|lia]. }
  assert (Hsame : forall (q : nat -> nat) a, sw_valid q -> a < d -> a <> is_ ->
            sw_P (snd D) (sw_ipif D (sw_pif S a)) = sw_P (snd S) a /\
            sw_co (snd D) q (sw_ipif D (sw_pif S a)) = sw_co (snd S) q a).
  { intros q a Hq Ha Hne. apply sw_axis_same_spec; [|exact Hq].
    rewrite forallb_forall in Hall. specialize (Hall a ltac:(apply in_seq; lia)).
    destruct (Nat.eqb_spec a is_); [contradiction|]. exact Hall. }
  assert (HF : sw_P (snd D) (sw_ipif D (sw_pif S is_)) = 1 /\
               forall q : nat -> nat, sw_valid q -> sw_co (snd D) q (sw_ipif D (sw_pif S is_)) = 0).
  { split; [exact Hfull|]. intros q Hq.
    pose proof (sw_co_lt (snd D) q (sw_ipif D (sw_pif S is_)) Hq) as H.
    unfold sw_ipif, sw_pif in H. rewrite Hfull in H. unfold sw_ipif, sw_pif. lia. }
  assert (HsV : forall (q : nat -> nat) r, sw_valid q -> r < sw_P (snd S) is_ -> sw_valid (sw_upd q X r)).
  { intros q r Hq Hr t. unfold sw_upd. destruct (Nat.eqb_spec t X) as [->|]; [lia|apply Hq]. }
  assert (HsI : forall (q : nat -> nat) r, sw_valid q -> r < sw_P (snd S) is_ -> sw_co (snd S) (sw_upd q X r) is_ = r).
  { intros q r _ _. unfold sw_co, sw_upd. destruct (Nat.ltb_spec is_ (length (snd S))); [|lia].
    fold X. rewrite Nat.eqb_refl. reflexivity. }
  assert (HsO : forall (q : nat -> nat) r a, sw_valid q -> r < sw_P (snd S) is_ -> a <> is_ ->
            sw_co (snd S) (sw_upd q X r) a = sw_co (snd S) q a).
  { intros q r a _ _ Hne. unfold sw_co, sw_upd. destruct (Nat.ltb_spec a (length (snd S))) as [Ha|Ha]; [|reflexivity].
    destruct (Nat.eqb_spec (nth a (snd S) 0) X) as [E|E]; [|reflexivity].
    exfalso. apply Hne. apply (proj1 (NoDup_nth (snd S) 0) HndS); assumption. }
  pose proof (gather_correct_valid V d sw_Nf (sw_pif S) (sw_ipif S) (sw_pif D) (sw_ipif D) is_ (nat -> nat) sw_valid
                (fun c r => sw_upd c X r)
                (sw_P (snd S)) (sw_P (snd D)) (sw_co (snd S)) (sw_co (snd D)) Hisd
                (perm_fwd d (fst S) Hp) (perm_bwd d (fst S) Hp) (perm_bwd d (fst D) Hp')
                (sw_P_pos Hpos _ _) Hsame HF HsV HsI HsO
                G (sw_srcf bufs) (sw_holds_src S bufs HL)) as HD.
  intros w Hw j' Hj'. unfold sw_run_gather.
  rewrite sw_nth_map_seq_list by exact Hw.
  rewrite sw_nth_map_seq by (apply ravel_lt, Hj').
  exact (HD (sw_cfun w) (sw_cfun_valid w Hw) j' Hj').
Qed.

End Steps.

(** the dispatching step *)
Theorem sw_step_correct S D bufs : sw_step_wf_b S D = true ->
  HoldsS S bufs -> HoldsS D (sw_run_step S D bufs).
Proof.
  unfold sw_step_wf_b, sw_run_step. intros H HL. apply andb_prop in H. destruct H as [Hwf H].
  destruct (sw_nd (snd D) =? sw_nd (snd S)).
  - apply sw_same_correct; assumption.
  - destruct (sw_nd (snd S) <? sw_nd (snd D)).
    + destruct (sw_scatter_axis S D) as [is_|]; [|discriminate]. apply sw_scatter_correct; assumption.
    + destruct (sw_gather_axis S D) as [is_|]; [|discriminate]. apply sw_gather_correct; assumption.
Qed.

(** ** the block prefix is determined by the global field *)
Lemma sw_run_exact_gen (f : nat -> nat -> V) L :
  sw_exact L (map (fun w => map (f w) (seq 0 (size (sw_shape L w)))) (seq 0 sw_nranks)).
Proof.
  split; [rewrite map_length, seq_length; reflexivity|].
  intros w Hw. rewrite sw_nth_map_seq_list by exact Hw. rewrite map_length, seq_length. reflexivity.
Qed.

Lemma sw_run_step_exact S D bufs : sw_step_wf_b S D = true -> sw_exact D (sw_run_step S D bufs).
Proof.
  unfold sw_step_wf_b, sw_run_step. intros H. apply andb_prop in H. destruct H as [_ H].
  destruct (sw_nd (snd D) =? sw_nd (snd S)); [apply sw_run_exact_gen|].
  destruct (sw_nd (snd S) <? sw_nd (snd D)).
  - destruct (sw_scatter_axis S D); [apply sw_run_exact_gen|discriminate].
  - destruct (sw_gather_axis S D); [apply sw_run_exact_gen|discriminate].
Qed.

Lemma sw_block_of_G L bufs w : HoldsS L bufs -> w < sw_nranks ->
  length (nth w bufs []) = size (sw_shape L w) ->
  nth w bufs [] = map (fun A => G (sw_glob L w (unravel (sw_shape L w) A))) (seq 0 (size (sw_shape L w))).
Proof.
  intros HL Hw Hlen. apply nth_ext with (d := dflt) (d' := dflt).
  - rewrite map_length, seq_length. exact Hlen.
  - intros A HA. rewrite Hlen in HA. rewrite sw_nth_map_seq by exact HA.
    pose proof (unravel_inb _ _ HA) as Hinb.
    rewrite <- (HL w Hw _ Hinb). rewrite ravel_unravel by exact HA. reflexivity.
Qed.

Theorem sw_holds_unique L b1 b2 : HoldsS L b1 -> HoldsS L b2 -> sw_exact L b1 -> sw_exact L b2 -> b1 = b2.
Proof.
  intros H1 H2 [Hl1 He1] [Hl2 He2]. apply nth_ext with (d := []) (d' := []); [congruence|].
  intros w Hw. rewrite Hl1 in Hw.
  rewrite (sw_block_of_G L b1 w H1 Hw (He1 w Hw)), (sw_block_of_G L b2 w H2 Hw (He2 w Hw)). reflexivity.
Qed.

(** moving to another handler and back reproduces the original blocks; in particular scatter after gather *)
Corollary sw_back_and_forth_id S D bufs : sw_step_wf_b S D = true -> sw_step_wf_b D S = true ->
  HoldsS S bufs -> sw_exact S bufs -> sw_run_step D S (sw_run_step S D bufs) = bufs.
Proof.
  intros H1 H2 HL He. apply (sw_holds_unique S).
  - apply sw_step_correct; [exact H2|]. apply sw_step_correct; assumption.
  - exact HL.
  - apply sw_run_step_exact, H2.
  - exact He.
Qed.

Corollary sw_scatter_after_gather_id S D is_ is' bufs :
  sw_cfg_wf_b S D = true -> sw_cfg_wf_b D S = true ->
  sw_gather_wf_b S D is_ = true -> sw_scatter_wf_b D S is' = true ->
  HoldsS S bufs -> sw_exact S bufs ->
  sw_run_scatter D S is' (sw_run_gather S D is_ bufs) = bufs.
Proof.
  intros W1 W2 H1 H2 HL He. apply (sw_holds_unique S).
  - apply sw_scatter_correct; [exact W2|exact H2|]. apply sw_gather_correct; assumption.
  - exact HL.
  - apply sw_run_exact_gen.
  - exact He.
Qed.

(** replicas: two world ranks with the same coordinates on the topology axes used by the layout's
    handler hold identical blocks *)
Theorem sw_replicas_equal_gen L bufs w w' : HoldsS L bufs -> sw_exact L bufs ->
  w < sw_nranks -> w' < sw_nranks ->
  (forall t, In t (snd L) -> sw_cfun w' t = sw_cfun w t) ->
  nth w' bufs [] = nth w bufs [].
Proof.
  intros HL [_ He] Hw Hw' Hc.
  assert (Eco : forall a, sw_co (snd L) (sw_cfun w') a = sw_co (snd L) (sw_cfun w) a).
  { intros a. unfold sw_co. destruct (Nat.ltb_spec a (length (snd L))) as [Ha|Ha]; [|reflexivity].
    apply Hc, nth_In, Ha. }
  assert (Esh : sw_shape L w' = sw_shape L w).
  { unfold sw_shape. apply mk_ext. intros a _. unfold sw_shapef. rewrite Eco. reflexivity. }
  rewrite (sw_block_of_G L bufs w' HL Hw' (He w' Hw')), (sw_block_of_G L bufs w HL Hw (He w Hw)).
  rewrite Esh. apply map_ext. intros A. f_equal.
  unfold sw_glob, sw_globf. apply mk_ext. intros e _. rewrite Eco. reflexivity.
Qed.

(** after a gather along topology axis X all world ranks that differ only in the coordinate along X hold
    identical destination prefixes *)
Theorem sw_replicas_equal S D is_ bufs w r' :
  sw_cfg_wf_b S D = true -> sw_gather_wf_b S D is_ = true -> HoldsS S bufs ->
  w < sw_nranks -> r' < sw_PT (nth is_ (snd S) 0) ->
  let w' := sw_rank_of (sw_upd (sw_cfun w) (nth is_ (snd S) 0) r') in
  w' < sw_nranks /\
  nth w' (sw_run_gather S D is_ bufs) [] = nth w (sw_run_gather S D is_ bufs) [].
Proof.
  intros W Hg HL Hw Hr' w'.
  assert (Hv : sw_valid (sw_upd (sw_cfun w) (nth is_ (snd S) 0) r')).
  { intros t. unfold sw_upd. destruct (Nat.eqb_spec t (nth is_ (snd S) 0)) as [->|]; [exact Hr'|].
    apply sw_cfun_valid, Hw. }
  assert (Hw' : w' < sw_nranks) by (apply sw_rank_of_lt, Hv).
  split; [exact Hw'|].
  apply (sw_replicas_equal_gen D).
  - apply sw_gather_correct; assumption.
  - apply sw_run_exact_gen.
  - exact Hw.
  - exact Hw'.
  - intros t Ht. unfold w'. rewrite sw_cfun_rank_of by exact Hv. unfold sw_upd.
    destruct (Nat.eqb_spec t (nth is_ (snd S) 0)) as [E|E]; [|reflexivity].
    exfalso. unfold sw_gather_wf_b in Hg. apply andb_prop in Hg. destruct Hg as [_ Hg].
    apply negb_true_iff in Hg. apply (sw_existsb_eqb_false _ _ Hg). rewrite <- E. exact Ht.
Qed.

End SwExec.
