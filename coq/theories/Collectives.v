From Coq Require Import List Arith Lia Bool PeanoNat.
Import ListNotations.

Section Collectives.
Variables comm sig payload result : Type.
Variable comm_eqb : comm -> comm -> bool.
Hypothesis comm_eqb_spec : forall a b, reflect (a = b) (comm_eqb a b).
Variable members : comm -> list nat.                       (* ranks of a communicator *)
Variable res : comm -> (nat -> payload) -> nat -> result.  (* what rank r receives *)
Hypothesis res_local : forall c f g, (forall r, In r (members c) -> f r = g r) ->
  forall r, res c f r = res c g r.
Variable dpay : payload.

(* a rank: finished, or blocked in a collective on c with a continuation *)
Inductive proc := Done | Coll (c : comm) (sg : sig) (pay : payload) (k : result -> proc).
Definition state := nat -> proc.
Definition eqst (a b : state) := forall r, a r = b r.

Definition at_comm (p : proc) (c : comm) : bool :=
  match p with Coll c' _ _ _ => comm_eqb c' c | Done => false end.
Definition pay_of (p : proc) : payload := match p with Coll _ _ pay _ => pay | Done => dpay end.
Definition cont_of (p : proc) : result -> proc :=
  match p with Coll _ _ _ k => k | Done => fun _ => Done end.
Definition mem (r : nat) (c : comm) : bool := existsb (Nat.eqb r) (members c).

Definition enabled (st : state) (c : comm) : Prop :=
  members c <> [] /\ forall r, In r (members c) -> at_comm (st r) c = true.

(* all members of c leave the collective together, each with its own result *)
Definition fire (st : state) (c : comm) : state := fun r =>
  if mem r c then cont_of (st r) (res c (fun r' => pay_of (st r')) r) else st r.

Lemma fire_mem st c r : mem r c = true ->
  fire st c r = cont_of (st r) (res c (fun r' => pay_of (st r')) r).
Proof. intros H. unfold fire. rewrite H. reflexivity. Qed.
Lemma fire_nmem st c r : mem r c = false -> fire st c r = st r.
Proof. intros H. unfold fire. rewrite H. reflexivity. Qed.

Lemma mem_In r c : mem r c = true <-> In r (members c).
Proof. unfold mem. rewrite existsb_exists. split.
  - intros [x [Hx E]]. apply Nat.eqb_eq in E. subst. exact Hx.
  - intros H. exists r. split; [exact H|apply Nat.eqb_refl]. Qed.

Lemma enabled_ext a b c : eqst a b -> enabled a c -> enabled b c.
Proof. intros E [H1 H2]. split; [exact H1|]. intros r Hr. rewrite <- E. apply H2, Hr. Qed.

Lemma fire_ext a b c : eqst a b -> eqst (fire a c) (fire b c).
Proof. intros E r. unfold fire. destruct (mem r c); [|apply E]. rewrite E. f_equal.
  apply res_local. intros r' _. rewrite E. reflexivity. Qed.

(* a rank waits on one communicator only: two enabled communicators share no member *)
Lemma enabled_disjoint st c1 c2 : enabled st c1 -> enabled st c2 -> c1 <> c2 ->
  forall r, In r (members c1) -> ~ In r (members c2).
Proof.
  intros [_ H1] [_ H2] Hne r R1 R2. specialize (H1 r R1). specialize (H2 r R2).
  destruct (st r) as [|c' sg pay k]; cbn in *; [discriminate|].
  destruct (comm_eqb_spec c' c1), (comm_eqb_spec c' c2); try discriminate. congruence.
Qed.

Lemma diamond st c1 c2 : enabled st c1 -> enabled st c2 -> c1 <> c2 ->
  enabled (fire st c1) c2 /\ eqst (fire (fire st c1) c2) (fire (fire st c2) c1).
Proof.
  intros E1 E2 Hne.
  pose proof (enabled_disjoint st c1 c2 E1 E2 Hne) as D12.
  assert (D21 : forall r, In r (members c2) -> ~ In r (members c1)) by (intros r A B; exact (D12 r B A)).
  assert (U1 : forall r, In r (members c2) -> fire st c1 r = st r).
  { intros r Hr. unfold fire. destruct (mem r c1) eqn:M; [|reflexivity].
    apply mem_In in M. exfalso. exact (D21 r Hr M). }
  assert (U2 : forall r, In r (members c1) -> fire st c2 r = st r).
  { intros r Hr. unfold fire. destruct (mem r c2) eqn:M; [|reflexivity].
    apply mem_In in M. exfalso. exact (D12 r Hr M). }
  split.
  - destruct E2 as [N2 H2]. split; [exact N2|]. intros r Hr. rewrite U1 by exact Hr. apply H2, Hr.
  - intros r.
    destruct (mem r c2) eqn:M2; destruct (mem r c1) eqn:M1.
    + apply mem_In in M1, M2. exfalso. exact (D12 r M1 M2).
    + rewrite (fire_mem _ _ _ M2), (fire_nmem (fire st c2) _ _ M1), (fire_mem st _ _ M2).
      apply mem_In in M2. rewrite (U1 r M2). f_equal.
      apply res_local. intros r' Hr'. rewrite (U1 r' Hr'). reflexivity.
    + rewrite (fire_nmem (fire st c1) _ _ M2), (fire_mem st _ _ M1), (fire_mem (fire st c2) _ _ M1).
      apply mem_In in M1. rewrite (U2 r M1). f_equal.
      apply res_local. intros r' Hr'. rewrite (U2 r' Hr'). reflexivity.
    + rewrite !fire_nmem by assumption. reflexivity.
Qed.

(* executions *)
Definition terminal (st : state) := forall c, ~ enabled st c.
Fixpoint runs (n : nat) (st T : state) : Prop :=
  match n with
  | O => eqst st T
  | S n' => exists c, enabled st c /\ runs n' (fire st c) T
  end.

Lemma runs_ext n : forall a b T, eqst a b -> runs n a T -> runs n b T.
Proof. induction n as [|n IH]; intros a b T E H; cbn in *.
  - intros r. rewrite <- E. apply H.
  - destruct H as [c [Hc Hr]]. exists c. split; [eapply enabled_ext; eauto|].
    eapply IH; [apply fire_ext, E|exact Hr]. Qed.

Lemma terminal_ext a b : eqst a b -> terminal a -> terminal b.
Proof. intros E H c Hc. apply (H c). eapply enabled_ext; [|exact Hc]. intros r. symmetry. apply E. Qed.

(* key lemma: whatever enabled collective is fired first, the rest of the run is one step shorter *)
Lemma any_first_step n : forall st T, runs n st T -> terminal T ->
  forall c, enabled st c -> exists m, n = S m /\ runs m (fire st c) T.
Proof.
  induction n as [|n IH]; intros st T HR HT c Hc.
  - exfalso. cbn in HR. apply (HT c). eapply enabled_ext; [exact HR|exact Hc].
  - cbn in HR. destruct HR as [c' [Hc' HR']]. exists n. split; [reflexivity|].
    destruct (comm_eqb_spec c' c) as [->|Hne]; [exact HR'|].
    destruct (diamond st c' c Hc' Hc Hne) as [Hen Heq].
    destruct (IH _ _ HR' HT c Hen) as [m [-> HR'']].
    destruct (diamond st c c' Hc Hc' (fun e => Hne (eq_sym e))) as [Hen' _].
    cbn. exists c'. split; [exact Hen'|].
    eapply runs_ext; [|exact HR'']. exact Heq.
Qed.

(* schedule independence: every maximal execution has the same length and the same end state *)
Theorem schedule_independent n : forall st T, runs n st T -> terminal T ->
  forall m T', runs m st T' -> terminal T' -> m = n /\ eqst T T'.
Proof.
  induction n as [|n IH]; intros st T HR HT m T' HR' HT'.
  - cbn in HR. destruct m as [|m].
    + cbn in HR'. split; [reflexivity|]. intros r. rewrite <- HR, HR'. reflexivity.
    + exfalso. cbn in HR'. destruct HR' as [c [Hc _]]. apply (HT c). eapply enabled_ext; [exact HR|exact Hc].
  - cbn in HR. destruct HR as [c [Hc HRc]].
    destruct (any_first_step m st T' HR' HT' c Hc) as [m' [-> HR'']].
    destruct (IH _ _ HRc HT _ _ HR'' HT') as [-> E]. split; [reflexivity|exact E].
Qed.

(* hence: if one schedule lets every rank finish, no schedule can end in a deadlock *)
Definition all_done (st : state) := forall r, st r = Done.
Corollary no_deadlock n st T : runs n st T -> all_done T ->
  forall m T', runs m st T' -> terminal T' -> all_done T'.
Proof.
  intros HR HD m T' HR' HT'.
  assert (HT : terminal T).
  { intros c [Hne H]. destruct (members c) as [|r l] eqn:E; [contradiction|].
    specialize (H r (or_introl eq_refl)). rewrite HD in H. discriminate. }
  destruct (schedule_independent n st T HR HT m T' HR' HT') as [_ E].
  intros r. rewrite <- E. apply HD.
Qed.
End Collectives.
