(** Non-vacuity of the composed C16 theorems on Qc: a clamped cubic v space on [0, 4] (breaks 0, 1, 3, 4), Greville
    interpolation points, nodal values of 1 + v^3: the density with the model's quadrature weights is 4 + 4^4/4 = 68. *)
From Coq Require Import List Arith Lia ZArith QArith Qcanon Bool.
Import ListNotations.
From PGV Require Import Sums SplineModel SplineQc InterpModel InterpQc MarsdenTheory Density DensityExact.

Definition dxq_poly : list Qc := ipq_z [1; 0; 0; 1]%Z.
Definition dxq_u : list Qc := map (ip_polyval Qc spq_ops dxq_poly) ipq_ex_xs.
Definition dxq_rho0 (w u : list Qc) : Qc := dn_rho0_fn Qc (Q2Qc 0) Qcplus Qcmult (length w) (fun l => nth l w (Q2Qc 0)) (fun l => nth l u (Q2Qc 0)).

Example dxq_ex_polynomial :
  match ip_quadrature Qc spq_ops ipq_ex_knots 3 false false ipq_ex_xs with
  | SpOk w => spq_show (dxq_rho0 w dxq_u) = (68%Z, 1%positive)
              /\ spq_show (dn_poly_integral Qc spq_ops dxq_poly (spq_of 0 1) (spq_of 4 1)) = (68%Z, 1%positive)
              (* constant in v: the constant times the length of the domain *)
              /\ spq_show (dxq_rho0 w (ipq_z [5; 5; 5; 5; 5; 5]%Z)) = (20%Z, 1%positive)
  | _ => False
  end
  (* and the interpolant has the Marsden coefficients *)
  /\ match ip_interp1d Qc spq_ops ipq_ex_knots 3 false false ipq_ex_xs dxq_u with
     | SpOk c => map spq_show c = map (fun j => spq_show (ip_poly_coeff Qc spq_ops ipq_ex_knots 3 dxq_poly j)) (seq 0 6)
     | _ => False
     end.
Proof. vm_compute. repeat split. Qed.
