(** The Galerkin model executed on canonical rationals (stdlib [Qc]): the instance that is
    extracted (coq/extract/parts/c14.txt) and run by harness/props/c14.py. *)
From Coq Require Import List Arith Lia ZArith QArith Qcanon Bool.
Import ListNotations.
From PGV Require Import Sums SplineModel SplineQc GalerkinModel.

Definition gkq_full (p nb : nat) (dgs : list (list Qc)) : list (list Qc) :=
  map (fun a => map (fun b => gk_entry Qc spq_ops p dgs a b) (seq 0 nb)) (seq 0 nb).

Definition gkq_assemble := gk_assemble Qc spq_ops.

(** the five matrices (mass, k2PhiPsi, PhiPsi, dPhidPsi, dPhiPsi) as scipy.sparse.diags builds them
    from the diagonal storage, rows 0 .. nb-1 *)
Definition gkq_band (knots : list Qc) (p nc nq : nat) (pts : list (list Qc)) (wts : list Qc) (mf : list Qc)
  (At Bt Ct Dt Et : list (list Qc)) : sp_res (list (list (list Qc))) :=
  sp_bind (gkq_assemble knots p nc nq pts wts mf At Bt Ct Dt Et) (fun S =>
  SpOk (map (gkq_full p (nc + p)) [gka_mass Qc S; gka_k2 Qc S; gka_phipsi Qc S; gka_dd Qc S; gka_d1 Qc S])).

(** the same five matrices as dense double sums over all cells (no overlap restriction) *)
Definition gkq_dense (knots : list Qc) (p nc nq : nat) (pts : list (list Qc)) (wts : list Qc) (mf : list Qc)
  (At Bt Ct Dt Et : list (list Qc)) : sp_res (list (list (list Qc))) :=
  sp_bind (gk_table Qc spq_ops knots p pts) (fun T =>
  if gk_spans_ok Qc p T nc nq then
    let W := fun (c q : nat) => (nth q wts (Q2Qc 0) * nth c mf (Q2Qc 0))%Qc in
    SpOk (map (fun k => map (fun a => map (fun b =>
            gk_dense Qc spq_ops nc nq (gk_phi Qc spq_ops p T) W (gk_at Qc spq_ops pts) (gk_at Qc spq_ops At)
              (gk_at Qc spq_ops Bt) (gk_at Qc spq_ops Ct) (gk_at Qc spq_ops Dt) (gk_at Qc spq_ops Et) k a b)
            (seq 0 (nc + p))) (seq 0 (nc + p))) [GkMass; GkK2; GkPhiPsi; GkDD; GkD1])
  else SpArgErr).

(** one mode, discrete right-hand side: coefficients of phi and its values at the nodes rs *)
Definition gkq_solve (knots : list Qc) (p nc nq : nat) (pts : list (list Qc)) (wts : list Qc) (mf : list Qc)
  (At Bt Ct Dt Et : list (list Qc)) (lN uN : list Z) (m : Z) (buf rho rs : list Qc)
  : sp_res (list Qc * list Qc) :=
  sp_bind (gkq_assemble knots p nc nq pts wts mf At Bt Ct Dt Et) (fun S =>
  sp_bind (gk_solve_mode Qc spq_ops S lN uN m buf rho) (fun c =>
  sp_bind (gk_eval Qc spq_ops knots p c rs) (fun v => SpOk (c, v)))).

Definition gkq_solve_func (knots : list Qc) (p nc nq : nat) (pts : list (list Qc)) (wts : list Qc) (mf : list Qc)
  (At Bt Ct Dt Et : list (list Qc)) (lN uN : list Z) (m : Z) (buf : list Qc) (rhot : list (list Qc)) (rs : list Qc)
  : sp_res (list Qc * list Qc) :=
  sp_bind (gkq_assemble knots p nc nq pts wts mf At Bt Ct Dt Et) (fun S =>
  sp_bind (gk_solve_mode_func Qc spq_ops S lN uN m buf nc nq pts wts mf rhot) (fun c =>
  sp_bind (gk_eval Qc spq_ops knots p c rs) (fun v => SpOk (c, v)))).

(** one solver object: the five matrices, then every work item through the shared buffer as the loops
    of solveEquation / solveEquationForFunction do, each with its values at the nodes rs *)
Definition gkq_case (knots : list Qc) (p nc nq : nat) (pts : list (list Qc)) (wts : list Qc) (mf : list Qc)
  (At Bt Ct Dt Et : list (list Qc)) (lN uN : list Z) (buf rs : list Qc) (work : list (gk_work Qc))
  : sp_res (list (list (list Qc)) * list (list Qc * list Qc)) :=
  sp_bind (gkq_assemble knots p nc nq pts wts mf At Bt Ct Dt Et) (fun S =>
  sp_bind (gk_solve_all Qc spq_ops S lN uN nc nq pts wts mf buf work) (fun cs =>
  sp_bind (sp_mapM (fun c => gk_eval Qc spq_ops knots p c rs) cs) (fun vs =>
  SpOk (map (gkq_full p (nc + p)) [gka_mass Qc S; gka_k2 Qc S; gka_phipsi Qc S; gka_dd Qc S; gka_d1 Qc S],
        combine cs vs)))).

Definition gkq_lin_solve := gk_lin_solve Qc spq_ops.
Definition gkq_refuses := gk_refuses Qc spq_ops.
Definition gkq_ranges (nb : nat) (lN uN : list Z) (m : Z) : list nat :=
  [gk_start_range lN; gk_end_range nb uN; gk_nunk nb lN uN; gk_coeff_lo lN m; gk_coeff_hi nb uN m;
   gk_stiff_lo lN m; gk_stiff_hi nb lN uN m].

Definition gkq_show_mats (r : sp_res (list (list (list Qc)))) : sp_res (list (list (list (Z * positive)))) :=
  match r with SpOk a => SpOk (map (map (map spq_show)) a) | SpIndexErr => SpIndexErr | SpFuelErr => SpFuelErr
             | SpDivErr => SpDivErr | SpArgErr => SpArgErr end.
Definition gkq_show_pair (r : sp_res (list Qc * list Qc)) : sp_res (list (Z * positive) * list (Z * positive)) :=
  match r with SpOk (a, b) => SpOk (map spq_show a, map spq_show b) | SpIndexErr => SpIndexErr | SpFuelErr => SpFuelErr
             | SpDivErr => SpDivErr | SpArgErr => SpArgErr end.
