(** C01: the undistributed step of LayoutHandler._transpose (layout.py:638-649): no distributed axis
    changes its dimension, the block is permuted locally:  destView[:] = transpose(sourceView, transposition).
    Gather form: cell j' of the destination receives source cell j with j[a] = j'[ipi' (pi a)]. *)
From Coq Require Import List Arith Lia PeanoNat Bool.
Import ListNotations.
From PGV Require Import NdIndex Blocks.

Section Local.
Variable V : Type.
Variable d : nat.
Variable N : nat -> nat.
Variable P : nat -> nat.
Variables pi ipi pi' ipi' : nat -> nat.

Hypothesis HP : forall a, 0 < P a.
Hypothesis Hpi : forall a, a < d -> pi a < d /\ ipi (pi a) = a.
Hypothesis Hipi : forall e, e < d -> ipi e < d /\ pi (ipi e) = e.
Hypothesis Hpi' : forall a, a < d -> pi' a < d /\ ipi' (pi' a) = a.
Hypothesis Hipi' : forall e, e < d -> ipi' e < d /\ pi' (ipi' e) = e.
(* no distributed axis changes its dimension *)
Hypothesis Hsame : forall a, a < d -> 1 < P a -> pi a = pi' a.

Definition lcoords := nat -> nat.
Definition lvalid (c : lcoords) := forall a, a < d -> c a < P a.
Definition lsh (c : lcoords) (a : nat) := blen (N (pi a)) (P a) (c a).
Definition lsh' (c : lcoords) (a : nat) := blen (N (pi' a)) (P a) (c a).

Variable G : list nat -> V.
Variable src : lcoords -> nat -> V.

Definition lglob (c : lcoords) (j : list nat) : list nat :=
  mk d (fun e => rd j (ipi e) + bstart (N e) (P (ipi e)) (c (ipi e))).
Definition lglob' (c : lcoords) (j : list nat) : list nat :=
  mk d (fun e => rd j (ipi' e) + bstart (N e) (P (ipi' e)) (c (ipi' e))).

Definition LHolds_src := forall c, lvalid c -> forall j, inb (mk d (lsh c)) j ->
  src c (ravel (mk d (lsh c)) j) = G (lglob c j).

Definition ldst (q : lcoords) (A' : nat) : V :=
  let j' := unravel (mk d (lsh' q)) A' in
  src q (ravel (mk d (lsh q)) (mk d (fun a => rd j' (ipi' (pi a))))).

Definition LHolds_dst := forall q, lvalid q -> forall j', inb (mk d (lsh' q)) j' ->
  ldst q (ravel (mk d (lsh' q)) j') = G (lglob' q j').

(* every source axis sits, in the destination, at an axis with the same process count and coordinate *)
Lemma laxis_match q a : lvalid q -> a < d ->
  let a' := ipi' (pi a) in a' < d /\ pi' a' = pi a /\ P a' = P a /\ q a' = q a.
Proof.
  intros Hq Ha a'. subst a'.
  destruct (Hpi a Ha) as [Hpa Hia].
  destruct (Hipi' (pi a) Hpa) as [Ha' Hpa'].
  split; [exact Ha'|]. split; [exact Hpa'|].
  destruct (Nat.eq_dec (P a) 1) as [E1|E1].
  - destruct (Nat.eq_dec (P (ipi' (pi a))) 1) as [E2|E2].
    + pose proof (Hq a Ha). pose proof (Hq _ Ha'). split; lia.
    + exfalso. pose proof (HP (ipi' (pi a))).
      assert (H1 : pi (ipi' (pi a)) = pi' (ipi' (pi a))) by (apply Hsame; [exact Ha'|lia]).
      rewrite Hpa' in H1.
      assert (ipi' (pi a) = a).
      { rewrite <- (proj2 (Hpi _ Ha')), H1. exact Hia. }
      rewrite H0 in E2. contradiction.
  - pose proof (HP a).
    assert (H1 : pi a = pi' a) by (apply Hsame; [exact Ha|lia]).
    assert (H2 : ipi' (pi a) = a) by (rewrite H1; apply Hpi', Ha).
    rewrite H2. split; reflexivity.
Qed.

Theorem local_correct : LHolds_src -> LHolds_dst.
Proof.
  intros HS q Hq j' Hj'. unfold ldst. rewrite (unravel_ravel _ _ Hj').
  pose proof (inb_mk_inv _ _ _ Hj') as Hjlt.
  assert (Hinb : inb (mk d (lsh q)) (mk d (fun a => rd j' (ipi' (pi a))))).
  { apply inb_mk. intros a Ha.
    destruct (laxis_match q a Hq Ha) as [Hx [Hy [Hz Hw]]].
    pose proof (Hjlt _ Hx) as H. unfold lsh' in H. rewrite Hy, Hz, Hw in H. exact H. }
  rewrite (HS q Hq _ Hinb). f_equal.
  unfold lglob, lglob'. apply mk_ext. intros e He.
  destruct (Hipi e He) as [Hae Hpe].
  rewrite rd_mk by exact Hae.
  destruct (laxis_match q (ipi e) Hq Hae) as [Hx [Hy [Hz Hw]]].
  rewrite Hpe in *. rewrite Hz, Hw. reflexivity.
Qed.

End Local.
