# index-function ("gather") model of LayoutHandler single-step transpose on flat buffers; mirrors layout.py phases
import itertools, numpy as np
def bstart(n,p,k): return (n//p)*k + ((n%p)*k)//p
def blen(n,p,k): return bstart(n,p,k+1)-bstart(n,p,k)
def bmax(n,p): return n//p+1 if n%p else n//p
def ravel(shp,idx):
    o=0
    for n,i in zip(shp,idx): o=o*n+i
    return o
def box(shp): return itertools.product(*[range(n) for n in shp])
def prod(l):
    r=1
    for x in l: r*=x
    return r
def Pfull(P,d): return list(P)+[1]*(d-len(P))
def lshape(N,P,pi,c): return [blen(N[pi[a]],P[a],c[a]) for a in range(len(pi))]
def lstart(N,P,pi,c,a): return bstart(N[pi[a]],P[a],c[a])
def swap0(l,a0):
    l=list(l); l[0],l[a0]=l[a0],l[0]; return l
def step(N,P,pi,pi2,src,fixed=True):
    """src: dict coords->flat list; returns dict coords->flat list (dest prefix)"""
    d=len(pi); P=Pfull(P,d)
    diff=[a for a in range(d) if P[a]>1 and pi[a]!=pi2[a]]
    assert len(diff)<=1
    ranks=list(itertools.product(*[range(p) for p in P]))
    out={}
    if not diff:
        for c in ranks:
            sh=lshape(N,P,pi,c); sh2=lshape(N,P,pi2,c)
            tr=[pi.index(x) for x in pi2]
            buf=[None]*prod(sh2)
            for j2 in box(sh2):
                i=[0]*d
                for k in range(d): i[tr[k]]=j2[k]
                buf[ravel(sh2,j2)]=src[c][ravel(sh,i)]
            out[c]=buf
        return out
    a0=diff[0]; a1=pi.index(pi2[a0]); a2=pi2.index(pi[a0]); p=P[a0]
    pos1 = (a0 if a1==0 else a1) if fixed else a1     # position of source axis a1 after swapping 0<->a0
    mb=bmax(N[pi[a0]],p); mb2=bmax(N[pi2[a0]],p)
    send={}
    for c in ranks:
        sh=lshape(N,P,pi,c)
        shape=list(sh); shape[a0]=mb; shape[a1]=mb2; bshape=swap0(shape,a0); size=prod(bshape)
        buf=['pad']*(size*p)
        for r in range(p):
            rng=swap0(sh,a0); rng[pos1]=blen(N[pi2[a0]],p,r)
            st=bstart(N[pi2[a0]],p,r)
            for m in box(rng):
                i=swap0(m,a0); i[a1]+=st
                buf[r*size+ravel(bshape,m)]=src[c][ravel(sh,i)]
        send[c]=(buf,size)
    for q in ranks:
        sh=lshape(N,P,pi,q); sh2=lshape(N,P,pi2,q)
        rcv=[]
        for r in range(p):
            c=list(q); c[a0]=r; b,size=send[tuple(c)]
            rcv+=b[q[a0]*size:(q[a0]+1)*size]
        sshape=list(sh); sshape[a1]=mb2; sshape[a0]=mb*p; bufshape=swap0(sshape,a0)
        sorder=swap0(pi,a0); tr=[sorder.index(x) for x in pi2]
        dest=[None]*prod(sh2)
        for j2 in box(sh2):
            g=j2[a2]; r=max(k for k in range(p) if bstart(N[pi[a0]],p,k)<=g); t=g-bstart(N[pi[a0]],p,r)
            m=[0]*d
            for k in range(d): m[tr[k]]=j2[k]
            m[0]=mb*r+t
            dest[ravel(sh2,j2)]=rcv[ravel(bufshape,m)]
        out[q]=dest
    return out
def holds(N,P,pi,G,bufs):
    d=len(pi); P=Pfull(P,d)
    for c,b in bufs.items():
        sh=lshape(N,P,pi,c)
        for j in box(sh):
            g=[0]*d
            for a in range(d): g[pi[a]]=j[a]+lstart(N,P,pi,c,a)
            if b[ravel(sh,j)]!=G[tuple(g)]: return False
    return True
def distribute(N,P,pi,G):
    d=len(pi); P=Pfull(P,d); out={}
    for c in itertools.product(*[range(p) for p in P]):
        sh=lshape(N,P,pi,c); b=[None]*prod(sh)
        for j in box(sh):
            g=[0]*d
            for a in range(d): g[pi[a]]=j[a]+lstart(N,P,pi,c,a)
            b[ravel(sh,j)]=G[tuple(g)]
        out[c]=b
    return out
if __name__=='__main__':
    import random
    rng=random.Random(1); n=0; bad=0
    for t in range(400):
        d=rng.choice([2,3,4]); N=[rng.randint(1,6) for _ in range(d)]
        k=rng.choice([1,2]) if d>1 else 1
        pi=list(range(d)); rng.shuffle(pi); pi2=list(range(d)); rng.shuffle(pi2)
        P=[rng.randint(1,3) for _ in range(k)]
        Pf=Pfull(P,d)
        if any(Pf[a]>min(N[pi[a]],N[pi2[a]]) for a in range(d)): continue
        if len([a for a in range(d) if Pf[a]>1 and pi[a]!=pi2[a]])>1: continue
        G=np.arange(prod(N)).reshape(N)
        src=distribute(N,P,pi,G)
        out=step(N,P,pi,pi2,src)
        n+=1
        if not holds(N,P,pi2,G,out): bad+=1; print('MODEL BAD',N,P,pi,pi2)
    print('model self-check cases',n,'bad',bad)
