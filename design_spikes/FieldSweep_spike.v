From Coq Require Import List ZArith Lia Field Ring Setoid.
Import ListNotations.

(* Abstract ordered field with Leibniz equality *)
Section OF.
Variable F : Type.
Variables (f0 f1 : F) (fadd fmul fsub fdiv : F -> F -> F) (fopp finv : F -> F).
Variable fle : F -> F -> Prop.
Hypothesis Fth : field_theory f0 f1 fadd fmul fsub fopp fdiv finv (@eq F).
Add Field FF : Fth.
Notation "x + y" := (fadd x y). Notation "x * y" := (fmul x y).
Notation "x - y" := (fsub x y). Notation "x / y" := (fdiv x y).
Notation "0" := f0. Notation "1" := f1.

(* one sweep of A2.2: given L, R : nat -> F for current j and old values *)
(* new values: fold over r *)
Fixpoint sweep (L R : nat -> F) (j r : nat) (vals : list F) (saved : F) : list F :=
  match vals with
  | [] => [saved]
  | v :: vs => let temp := v / (R r + L (j - r)%nat) in
               (saved + R r * temp) :: sweep L R j (S r) vs (L (j - r)%nat * temp)
  end.

Fixpoint sumF (l : list F) : F := match l with [] => 0 | x :: xs => x + sumF xs end.

Lemma sweep_sum L R j : forall vals r saved,
  (forall k, (k < length vals)%nat -> R (r + k)%nat + L (j - (r + k))%nat <> 0) ->
  sumF (sweep L R j r vals saved) = saved + sumF vals.
Proof.
  induction vals as [|v vs IH]; intros r saved Hnz; cbn [sweep sumF].
  - ring.
  - rewrite IH.
    + assert (H0 : R r + L (j - r)%nat <> 0).
      { specialize (Hnz O). rewrite !Nat.add_0_r in Hnz. apply Hnz. cbn. lia. }
      field. exact H0.
    + intros k Hk. specialize (Hnz (S k)). rewrite <- Nat.add_succ_comm in Hnz. apply Hnz. cbn. lia.
Qed.
End OF.
